package main

// C01 / C04 — structural ways in which the LALR(1) construction loses or invents lookaheads.

import (
	"fmt"
	"go/ast"
	"go/token"
	"go/types"
	"strings"

	"golang.org/x/tools/go/packages"
)

// ---- LALR-1: recursion guard that returns a truncated result ----

// recursionGuardFindings scans the given files for value-returning recursive functions with a
// `if seen.Has(x) { return <empty> }; seen.Add(x)` guard on a set that outlives the call.
func recursionGuardFindings(fset *token.FileSet, info *types.Info, files []*ast.File, pos func(token.Pos) string) (found []string, scanned int) {
	for _, f := range files {
		for _, d := range f.Decls {
			fd, ok := d.(*ast.FuncDecl)
			if !ok || fd.Body == nil || fd.Type.Results == nil || len(fd.Type.Results.List) == 0 {
				continue
			}
			self, _ := info.Defs[fd.Name].(*types.Func)
			if self == nil {
				continue
			}
			recursive := false
			ast.Inspect(fd.Body, func(n ast.Node) bool {
				if call, ok := n.(*ast.CallExpr); ok && calleeFunc(info, call) == self {
					recursive = true
				}
				return true
			})
			if !recursive {
				continue
			}
			scanned++
			params := map[types.Object]bool{}
			for _, fld := range fd.Type.Params.List {
				for _, nm := range fld.Names {
					params[info.Defs[nm]] = true
				}
			}
			// guard: if R.Has(x) { return ... } with R a parameter (shared by the whole traversal)
			ast.Inspect(fd.Body, func(n ast.Node) bool {
				ifs, ok := n.(*ast.IfStmt)
				if !ok || len(ifs.Body.List) != 1 {
					return true
				}
				ret, ok := ifs.Body.List[0].(*ast.ReturnStmt)
				if !ok || len(ret.Results) == 0 {
					return true
				}
				call, ok := ast.Unparen(ifs.Cond).(*ast.CallExpr)
				if !ok || len(call.Args) != 1 {
					return true
				}
				sel, ok := call.Fun.(*ast.SelectorExpr)
				if !ok || (sel.Sel.Name != "Has" && sel.Sel.Name != "Contains") {
					return true
				}
				recv := usesObj(info, sel.X)
				if recv == nil || !params[recv] {
					return true
				}
				// followed by R.Add(x) and never removed on exit
				added, removed := false, false
				ast.Inspect(fd.Body, func(m ast.Node) bool {
					c2, ok := m.(*ast.CallExpr)
					if !ok {
						return true
					}
					if s2, ok := c2.Fun.(*ast.SelectorExpr); ok && usesObj(info, s2.X) == recv {
						if s2.Sel.Name == "Add" && c2.Pos() > ifs.End() {
							added = true
						}
						if s2.Sel.Name == "Remove" || s2.Sel.Name == "Delete" {
							removed = true
						}
					}
					return true
				})
				if added && !removed {
					found = append(found, fmt.Sprintf("%s: %s returns `%s` when %s was seen before; the set is shared by the whole traversal, so a second visit yields a truncated result instead of the value computed the first time",
						pos(ifs.Pos()), fd.Name.Name, exprString(ret.Results[0]), exprString(call.Args[0])))
				}
				return true
			})
		}
	}
	return found, scanned
}

func ruleLALR1(c *Ctx) {
	const rule = "LALR-1"
	p := c.Prog
	total := 0
	for _, pk := range p.Prod {
		var files []*ast.File
		for _, f := range pk.Syntax {
			if !isTestFile(p.Fset, f) {
				files = append(files, f)
			}
		}
		found, n := recursionGuardFindings(p.Fset, pk.TypesInfo, files, p.Pos)
		total += n
		for _, f := range found {
			c.bad(rule, pk.Name+"/recursion-guard", strings.SplitN(f, ": ", 2)[0], "%s", f)
		}
	}
	c.ok(rule, "recursion-guards", "", "%d value-returning recursive functions of the production packages scanned: none cuts a result short on a visited-set hit", total)
	// FIRST must be computed to a fixed point: the function feeding Closure's lookaheads
	pk, fd := p.FuncDecl("internal/parsergen/lr1", "First")
	if fd == nil {
		c.unres(rule, "lr1.First", "", "function not found")
		return
	}
	_ = pk
	runFixture(c, rule, "LALR1", func(fset *token.FileSet, info *types.Info, files []*ast.File) []string {
		found, _ := recursionGuardFindings(fset, info, files, func(ps token.Pos) string { return fset.Position(ps).String() })
		return found
	})
}

// ---- LALR-2: change-reporting mutators ----

// changeReporters: methods with pointer receiver and a single bool result that mutate the receiver.
func changeReporters(p *Program) map[*types.Func]bool {
	out := map[*types.Func]bool{}
	for fn, fd := range p.funcDecls {
		if fd.Recv == nil || fd.Body == nil || fn.Pkg() == nil || !strings.HasPrefix(fn.Pkg().Path(), modPath+"/internal") {
			continue
		}
		sig := fn.Type().(*types.Signature)
		if sig.Results().Len() != 1 || !isBool(sig.Results().At(0).Type()) {
			continue
		}
		if _, ptr := sig.Recv().Type().(*types.Pointer); !ptr {
			continue
		}
		switch fn.Name() {
		case "Add", "AddSet", "AddSlice", "Put", "Insert", "Merge":
			out[fn] = true
		}
	}
	return out
}

func ruleLALR2(c *Ctx) {
	const rule = "LALR-2"
	p := c.Prog
	reporters := changeReporters(p)
	if len(reporters) < 4 {
		c.unres(rule, "change-reporting-mutators", "", "only %d change-reporting mutators (Add/AddSet/AddSlice with bool result) found; expected ItemSet.Add/AddSet and set.Set.Add/AddSlice/AddSet", len(reporters))
	}
	isReporter := func(info *types.Info, call *ast.CallExpr) bool {
		fn := calleeFunc(info, call)
		return fn != nil && reporters[fn.Origin()]
	}
	nSites, nAccum := 0, 0
	p.ProdFiles(func(pk *packages.Package, f *ast.File) {
		info := pk.TypesInfo
		for _, d := range f.Decls {
			fd, ok := d.(*ast.FuncDecl)
			if !ok || fd.Body == nil {
				continue
			}
			par := parents(fd)
			ast.Inspect(fd.Body, func(n ast.Node) bool {
				switch x := n.(type) {
				case *ast.BinaryExpr:
					if x.Op != token.LOR && x.Op != token.LAND {
						return true
					}
					// a reporter in the right operand is skipped whenever the left operand decides
					ast.Inspect(x.Y, func(m ast.Node) bool {
						if call, ok := m.(*ast.CallExpr); ok && isReporter(info, call) {
							if _, isConst := info.Types[x.X]; isConst && info.Types[x.X].Value != nil {
								return true
							}
							c.bad(rule, fmt.Sprintf("%s/short-circuit(%s)", funcKey(pk, fd), exprString(call.Fun)), p.Pos(call.Pos()),
								"`%s`: the mutating call %s is the right operand of %s and is skipped once the left operand decides; elements after the first change are never added", truncate(exprString(x), 80), exprString(call.Fun), x.Op)
						}
						return true
					})
					if call, ok := ast.Unparen(x.X).(*ast.CallExpr); ok && isReporter(info, call) && x.Op == token.LOR {
						nAccum++
						c.ok(rule, fmt.Sprintf("%s/accumulate(%s)", funcKey(pk, fd), exprString(call.Fun)), p.Pos(call.Pos()), "`%s`: the mutator is evaluated unconditionally (left operand)", truncate(exprString(x), 80))
					}
				case *ast.CallExpr:
					if isReporter(info, x) {
						nSites++
					}
				case *ast.ForStmt:
					// flag-controlled fixed point: for V { V = false; ... }
					v := usesObj(info, x.Cond)
					if v == nil || x.Cond == nil || len(x.Body.List) == 0 {
						return true
					}
					first, ok := x.Body.List[0].(*ast.AssignStmt)
					if !ok || len(first.Lhs) != 1 || usesObj(info, first.Lhs[0]) != v || exprString(first.Rhs[0]) != "false" {
						return true
					}
					ast.Inspect(x.Body, func(m ast.Node) bool {
						es, ok := m.(*ast.ExprStmt)
						if !ok {
							return true
						}
						call, ok := es.X.(*ast.CallExpr)
						if !ok || !isReporter(info, call) {
							return true
						}
						sel, _ := call.Fun.(*ast.SelectorExpr)
						if sel != nil {
							if ro, ok := usesObj(info, sel.X).(*types.Var); ok && isFreshLocal(info, x.Body, ro) {
								return true // scratch value created inside the iteration
							}
						}
						c.bad(rule, fmt.Sprintf("%s/fixpoint-discard(%s)", funcKey(pk, fd), exprString(call.Fun)), p.Pos(call.Pos()),
							"inside the fixed-point loop `for %s { %s = false ... }` the result of %s is discarded: a change made here does not trigger another pass and the iteration can stop before the fixed point", v.Name(), v.Name(), exprString(call.Fun))
						return true
					})
					c.ok(rule, fmt.Sprintf("%s/fixpoint-loop(%s)", funcKey(pk, fd), v.Name()), p.Pos(x.Pos()), "flag-controlled fixed-point loop scanned for discarded change reports")
				}
				return true
			})
			_ = par
		}
	})
	if nAccum < 3 {
		c.unres(rule, "accumulating-sites", "", "only %d `changed = m(...) || changed` sites found; 3 or more were confirmed by hand", nAccum)
	}
	c.ok(rule, "call-sites", "", "%d call sites of %d change-reporting mutators checked: none sits in a short-circuited operand", nSites, len(reporters))
}

// isFreshLocal: v is declared inside body by `var v T` (zero value), a composite literal or new().
func isFreshLocal(info *types.Info, body ast.Node, v *types.Var) bool {
	fresh := false
	ast.Inspect(body, func(n ast.Node) bool {
		switch x := n.(type) {
		case *ast.ValueSpec:
			for i, nm := range x.Names {
				if info.Defs[nm] == v {
					if len(x.Values) == 0 {
						fresh = true
					} else if _, ok := x.Values[i].(*ast.CompositeLit); ok {
						fresh = true
					}
				}
			}
		case *ast.AssignStmt:
			if x.Tok == token.DEFINE {
				for i, l := range x.Lhs {
					if id, ok := l.(*ast.Ident); ok && info.Defs[id] == v && i < len(x.Rhs) {
						switch r := ast.Unparen(x.Rhs[i]).(type) {
						case *ast.CompositeLit:
							fresh = true
						case *ast.CallExpr:
							if builtinName(info, r) == "new" {
								fresh = true
							}
						}
					}
				}
			}
		}
		return true
	})
	return fresh
}

// ---- LALR-3: re-queue on growth ----

func ruleLALR3(c *Ctx) {
	const rule = "LALR-3"
	p := c.Prog
	pk, fd := p.FuncDecl("internal/parsergen/lr1", "ConstructLALR")
	if fd == nil {
		c.unres(rule, "lr1.ConstructLALR", "", "function not found")
		return
	}
	info := pk.TypesInfo
	reporters := changeReporters(p)
	// existing := t.GetStateByKey(K)
	type lookup struct {
		state types.Object
		key   ast.Expr
		pos   token.Pos
	}
	var lookups []lookup
	ast.Inspect(fd.Body, func(n ast.Node) bool {
		as, ok := n.(*ast.AssignStmt)
		if !ok || len(as.Lhs) != 1 || len(as.Rhs) != 1 {
			return true
		}
		call, ok := as.Rhs[0].(*ast.CallExpr)
		if ok && len(call.Args) == 1 {
			if fn := calleeFunc(info, call); fn != nil && fn.Name() == "GetStateByKey" {
				lookups = append(lookups, lookup{usesObj(info, as.Lhs[0]), call.Args[0], as.Pos()})
			}
		}
		return true
	})
	checked := 0
	par := parents(fd)
	ast.Inspect(fd.Body, func(n ast.Node) bool {
		call, ok := n.(*ast.CallExpr)
		if !ok {
			return true
		}
		fn := calleeFunc(info, call)
		if fn == nil || !reporters[fn.Origin()] {
			return true
		}
		sel, ok := call.Fun.(*ast.SelectorExpr)
		if !ok {
			return true
		}
		var lk *lookup
		for i := range lookups {
			if usesObj(info, sel.X) == lookups[i].state {
				lk = &lookups[i]
			}
		}
		if lk == nil {
			return true
		}
		checked++
		construct := fmt.Sprintf("lr1.ConstructLALR/merge(%s.%s)", exprString(sel.X), sel.Sel.Name)
		// the result must reach a flag variable
		var flag types.Object
		for q := par[call]; q != nil; q = par[q] {
			if as, ok := q.(*ast.AssignStmt); ok && len(as.Lhs) == 1 {
				flag = usesObj(info, as.Lhs[0])
				break
			}
			if ifs, ok := q.(*ast.IfStmt); ok && containsNode(ifs.Cond, call) {
				// if X.Add(..) { changed = true }
				for _, s := range ifs.Body.List {
					if as, ok := s.(*ast.AssignStmt); ok && len(as.Lhs) == 1 && exprString(as.Rhs[0]) == "true" {
						flag = usesObj(info, as.Lhs[0])
					}
				}
				break
			}
			if _, ok := q.(*ast.ExprStmt); ok {
				break
			}
		}
		if flag == nil {
			c.bad(rule, construct, p.Pos(call.Pos()), "lookaheads are merged into an existing state but the 'changed' result is not recorded: the state is never re-expanded with its new lookaheads")
			return true
		}
		// if <flag> { pending.Add(K) } with K the key the state was looked up with
		okReq := false
		why := "no `if " + flag.Name() + " { pending.Add(key) }` follows the merge"
		ast.Inspect(fd.Body, func(m ast.Node) bool {
			ifs, ok := m.(*ast.IfStmt)
			if !ok || ifs.Pos() < call.End() {
				return true
			}
			if !mentionsObj(info, ifs.Cond, flag) {
				return true
			}
			if usesObj(info, ifs.Cond) != flag {
				why = fmt.Sprintf("the re-queue is guarded by `%s`, not by the change flag alone: some grown states are never re-expanded", exprString(ifs.Cond))
				return true
			}
			for _, s := range ifs.Body.List {
				if es, ok := s.(*ast.ExprStmt); ok {
					if c2, ok := es.X.(*ast.CallExpr); ok && len(c2.Args) == 1 && sameExpr(c2.Args[0], lk.key) {
						if s2, ok := c2.Fun.(*ast.SelectorExpr); ok && s2.Sel.Name == "Add" {
							okReq = true
						}
					}
				}
			}
			return true
		})
		c.check(okReq, rule, construct, p.Pos(call.Pos()),
			fmt.Sprintf("every lookahead merged into an existing state sets %s, and `if %s` alone re-queues the state's key", flag.Name(), flag.Name()), why)
		// the flag is fresh for each target state
		freshFlag := false
		for q := par[call]; q != nil; q = par[q] {
			if blk, ok := q.(*ast.BlockStmt); ok {
				for _, s := range blk.List {
					if as, ok := s.(*ast.AssignStmt); ok && as.Tok == token.DEFINE && len(as.Lhs) == 1 && info.Defs[as.Lhs[0].(*ast.Ident)] == flag && exprString(as.Rhs[0]) == "false" {
						if _, inRange := par[blk].(*ast.RangeStmt); inRange {
							freshFlag = true
						}
					}
				}
			}
		}
		c.check(freshFlag, rule, construct+"/flag-scope", p.Pos(call.Pos()), "the change flag starts false for every (state, symbol) pair", "the change flag is not reset per target state")
		return true
	})
	if checked == 0 {
		c.unres(rule, "lr1.ConstructLALR/merge", p.Pos(fd.Pos()), "no merge of lookaheads into a state obtained from GetStateByKey was found")
	}
	// new states are always queued
	okNew := false
	ast.Inspect(fd.Body, func(n ast.Node) bool {
		blk, ok := n.(*ast.BlockStmt)
		if !ok {
			return true
		}
		hasAddState, setsFlag := false, false
		for _, s := range blk.List {
			if es, ok := s.(*ast.ExprStmt); ok {
				if call, ok := es.X.(*ast.CallExpr); ok {
					if fn := calleeFunc(info, call); fn != nil && fn.Name() == "AddState" {
						hasAddState = true
					}
					if s2, ok := call.Fun.(*ast.SelectorExpr); ok && s2.Sel.Name == "Add" && hasAddState && len(call.Args) == 1 {
						setsFlag = true
					}
				}
			}
			if as, ok := s.(*ast.AssignStmt); ok && hasAddState && len(as.Rhs) == 1 && exprString(as.Rhs[0]) == "true" {
				setsFlag = true
			}
		}
		if hasAddState && setsFlag {
			okNew = true
		}
		return true
	})
	c.check(okNew, rule, "lr1.ConstructLALR/new-state-queued", p.Pos(fd.Pos()), "a newly created state is always queued for expansion", "a newly created state is not queued for expansion")
	// loop runs until the pending set is empty
	okLoop := false
	ast.Inspect(fd.Body, func(n ast.Node) bool {
		if fs, ok := n.(*ast.ForStmt); ok && fs.Cond != nil {
			if un, ok := fs.Cond.(*ast.UnaryExpr); ok && un.Op == token.NOT {
				if call, ok := un.X.(*ast.CallExpr); ok {
					if s2, ok := call.Fun.(*ast.SelectorExpr); ok && s2.Sel.Name == "Empty" {
						okLoop = true
					}
				}
			}
		}
		return true
	})
	c.check(okLoop, rule, "lr1.ConstructLALR/until-empty", p.Pos(fd.Pos()), "construction iterates until the pending set is empty", "construction does not iterate until the pending set is empty")
}

func mentionsObj(info *types.Info, n ast.Node, o types.Object) bool {
	found := false
	ast.Inspect(n, func(m ast.Node) bool {
		if id, ok := m.(*ast.Ident); ok && info.Uses[id] == o {
			found = true
		}
		return !found
	})
	return found
}

// ---- LALR-4: item-set cache coherence ----

func ruleLALR4(c *Ctx) {
	const rule = "LALR-4"
	p := c.Prog
	pk := p.Pkg("internal/parsergen/lr1")
	if pk == nil {
		c.unres(rule, "lr1.ItemSet", "", "package not found")
		return
	}
	info := pk.TypesInfo
	n := 0
	for _, f := range pk.Syntax {
		if isTestFile(p.Fset, f) {
			continue
		}
		for _, d := range f.Decls {
			fd, ok := d.(*ast.FuncDecl)
			if !ok || fd.Body == nil || recvTypeName(fd) != "ItemSet" {
				continue
			}
			mutates := false
			var mutCall *ast.CallExpr
			ast.Inspect(fd.Body, func(m ast.Node) bool {
				call, ok := m.(*ast.CallExpr)
				if !ok {
					return true
				}
				sel, ok := call.Fun.(*ast.SelectorExpr)
				if !ok || !isField(info, sel.X, "parsergen/lr1", "ItemSet", "set") {
					return true
				}
				switch sel.Sel.Name {
				case "Add", "AddSlice", "AddSet", "Remove", "Clear", "Put":
					// only when the receiver is the method's own receiver
					mutates = true
					mutCall = call
				}
				return true
			})
			if !mutates {
				continue
			}
			n++
			construct := "lr1.ItemSet." + fd.Name.Name + "/cache-reset"
			resets := false
			ast.Inspect(fd.Body, func(m ast.Node) bool {
				if as, ok := m.(*ast.AssignStmt); ok && len(as.Lhs) == 1 && isField(info, as.Lhs[0], "parsergen/lr1", "ItemSet", "cachedItems") && exprString(as.Rhs[0]) == "nil" {
					resets = true
				}
				return true
			})
			if resets {
				isReset := func(nn ast.Node) bool {
					r := false
					ast.Inspect(nn, func(m ast.Node) bool {
						if as, ok := m.(*ast.AssignStmt); ok && len(as.Lhs) == 1 && isField(info, as.Lhs[0], "parsergen/lr1", "ItemSet", "cachedItems") {
							r = true
						}
						return true
					})
					return r
				}
				g := p.CFG(pk, fd)
				okPath := false
				if mp, found := cfgLocate(g, mutCall); found {
					escaped := cfgForward(g, []cfgPos{mp}, false, isReset, nil)
					okPath = !escaped || mustPassBefore(g, mutCall, isReset)
				}
				c.check(okPath, rule, construct, p.Pos(fd.Pos()), "the memoised Items() slice is dropped whenever the set is mutated", "the set can be mutated on a path that keeps the memoised Items() slice")
				continue
			}
			// exception: only ever called on fresh local sets before Items() was used
			fnObj, _ := info.Defs[fd.Name].(*types.Func)
			okExc, why := cacheExceptionHolds(p, fnObj)
			c.check(okExc, rule, construct, p.Pos(fd.Pos()),
				"mutates the set without dropping the cache, but is only called on function-local sets before Items()/LR0Key()/ToString() is used on them: "+why,
				"mutates the set without dropping the memoised Items(): "+why)
		}
	}
	if n < 2 {
		c.unres(rule, "lr1.ItemSet/mutators", "", "only %d mutating ItemSet methods found", n)
	}
}

func cacheExceptionHolds(p *Program, fn *types.Func) (bool, string) {
	sites := 0
	bad := ""
	p.ProdFiles(func(pk *packages.Package, f *ast.File) {
		info := pk.TypesInfo
		for _, d := range f.Decls {
			fd, ok := d.(*ast.FuncDecl)
			if !ok || fd.Body == nil {
				continue
			}
			ast.Inspect(fd.Body, func(n ast.Node) bool {
				call, ok := n.(*ast.CallExpr)
				if !ok || calleeFunc(info, call) != fn {
					return true
				}
				sites++
				sel := call.Fun.(*ast.SelectorExpr)
				rv, ok := usesObj(info, sel.X).(*types.Var)
				if !ok || rv.IsField() || !isFreshLocal(info, fd.Body, rv) {
					bad = fmt.Sprintf("%s: called on %s, which is not a fresh function-local set", p.Pos(call.Pos()), exprString(sel.X))
					return true
				}
				// no cache-filling call on the same receiver before this call
				ast.Inspect(fd.Body, func(m ast.Node) bool {
					c2, ok := m.(*ast.CallExpr)
					if !ok || c2.Pos() >= call.Pos() {
						return true
					}
					if s2, ok := c2.Fun.(*ast.SelectorExpr); ok && usesObj(info, s2.X) == types.Object(rv) {
						switch s2.Sel.Name {
						case "Items", "LR0Key", "ToString":
							bad = fmt.Sprintf("%s: %s() fills the cache before %s is called", p.Pos(c2.Pos()), s2.Sel.Name, fn.Name())
						}
					}
					return true
				})
				// and not inside a loop in which the cache is filled
				return true
			})
		}
	})
	if bad != "" {
		return false, bad
	}
	if sites == 0 {
		return true, "no call sites"
	}
	return true, fmt.Sprintf("%d call sites, all on fresh locals", sites)
}

// ---- LALR-5: merge key ----

func ruleLALR5(c *Ctx) {
	const rule = "LALR-5"
	p := c.Prog
	pk, fd := p.FuncDecl("internal/parsergen/lr1", "ItemSet.LR0Key")
	if fd == nil {
		c.unres(rule, "lr1.ItemSet.LR0Key", "", "function not found")
		return
	}
	info := pk.TypesInfo
	fields := map[string]bool{}
	ast.Inspect(fd.Body, func(n ast.Node) bool {
		if sel, ok := n.(*ast.SelectorExpr); ok {
			if s := info.Selections[sel]; s != nil && s.Kind() == types.FieldVal && typeIs(s.Recv(), "parsergen/lr1", "Item") {
				fields[sel.Sel.Name] = true
			}
		}
		return true
	})
	c.check(fields["Prod"] && fields["Dot"] && !fields["Lookahead"] && len(fields) == 2, rule, "lr1.ItemSet.LR0Key/fields", p.Pos(fd.Pos()),
		"the merge key reads exactly Item.Prod and Item.Dot (the LR(0) core), never the lookahead",
		fmt.Sprintf("the merge key reads Item fields %v; it must be exactly the LR(0) core (Prod, Dot)", keysOfS(fields)))
	// iterates the sorted Items(), skipping non-kernel items
	sorted, kernel := false, false
	ast.Inspect(fd.Body, func(n ast.Node) bool {
		if rs, ok := n.(*ast.RangeStmt); ok {
			if call, ok := rs.X.(*ast.CallExpr); ok {
				if fn := calleeFunc(info, call); fn != nil && fn.Name() == "Items" {
					sorted = true
				}
			}
			for _, s := range rs.Body.List {
				if ifs, ok := s.(*ast.IfStmt); ok {
					if un, ok := ifs.Cond.(*ast.UnaryExpr); ok && un.Op == token.NOT {
						if call, ok := un.X.(*ast.CallExpr); ok {
							if fn := calleeFunc(info, call); fn != nil && fn.Name() == "IsKernel" && len(ifs.Body.List) == 1 {
								if br, ok := ifs.Body.List[0].(*ast.BranchStmt); ok && br.Tok == token.CONTINUE {
									kernel = true
								}
							}
						}
					}
				}
			}
		}
		return true
	})
	c.check(sorted && kernel, rule, "lr1.ItemSet.LR0Key/iteration", p.Pos(fd.Pos()), "the key is built from the sorted Items(), kernel items only", "the key is not built from the sorted kernel items")
	// fixed-width encoding of both fields
	enc := 0
	ast.Inspect(fd.Body, func(n ast.Node) bool {
		if call, ok := n.(*ast.CallExpr); ok {
			full := fullName(calleeFunc(info, call))
			if strings.HasPrefix(full, "encoding/binary.") && strings.Contains(full, "AppendUint") {
				enc++
			}
		}
		return true
	})
	c.check(enc == 2, rule, "lr1.ItemSet.LR0Key/encoding", p.Pos(fd.Pos()), "both fields are appended at fixed width: distinct cores give distinct keys", fmt.Sprintf("%d fixed-width appends instead of 2", enc))
	// sort order used by Items()
	_, si := p.FuncDecl("internal/parsergen/lr1", "ItemSet.Items")
	okSort := false
	if si != nil {
		ast.Inspect(si.Body, func(n ast.Node) bool {
			if call, ok := n.(*ast.CallExpr); ok {
				if fn := calleeFunc(info, call); fn != nil && (fn.Name() == "SortItems" || sortFuncs[fullName(fn)]) {
					okSort = true
				}
			}
			return true
		})
	}
	c.check(okSort, rule, "lr1.ItemSet.Items/sorted", "", "Items() sorts the elements before caching them", "Items() no longer sorts: keys of equal cores could differ")
	// IsKernel
	_, ik := p.FuncDecl("internal/parsergen/lr1", "Item.IsKernel")
	okK := false
	if ik != nil && len(ik.Body.List) == 1 {
		if rs, ok := ik.Body.List[0].(*ast.ReturnStmt); ok {
			s := exprString(rs.Results[0])
			okK = s == "i.Prod == sPrimeProdIndex || i.Dot != 0" || s == "i.Dot != 0 || i.Prod == sPrimeProdIndex"
		}
	}
	c.check(okK, rule, "lr1.Item.IsKernel", "", "kernel = start item or dot not at the beginning", "IsKernel is not `Prod == sPrime || Dot != 0`")
}

func keysOfS(m map[string]bool) []string {
	var ks []string
	for k := range m {
		ks = append(ks, k)
	}
	return sortedStrings(ks)
}

// ---- LALR-6: closure / goto skeleton ----

func ruleLALR6(c *Ctx) {
	const rule = "LALR-6"
	p := c.Prog
	pk, fd := p.FuncDecl("internal/parsergen/lr1", "Closure")
	if fd == nil {
		c.unres(rule, "lr1.Closure", "", "function not found")
		return
	}
	info := pk.TypesInfo
	// First(g, append(beta, a)) with beta = prod.Terms[item.Dot+1:], a = g.Terminals[item.Lookahead]
	var firstCall *ast.CallExpr
	ast.Inspect(fd.Body, func(n ast.Node) bool {
		if call, ok := n.(*ast.CallExpr); ok {
			if fn := calleeFunc(info, call); fn != nil && fn.Name() == "First" && fn.Pkg() == pk.Types {
				firstCall = call
			}
		}
		return true
	})
	okFirst := false
	why := "Closure does not call First"
	if firstCall != nil && len(firstCall.Args) == 2 {
		why = "First is not applied to beta followed by the item's own lookahead"
		if app, ok := firstCall.Args[1].(*ast.CallExpr); ok && builtinName(info, app) == "append" && len(app.Args) == 2 {
			beta := resolveLocal(info, fd, app.Args[0])
			a := resolveLocal(info, fd, app.Args[1])
			betaOK := false
			if sl, ok := ast.Unparen(beta).(*ast.SliceExpr); ok && sl.High == nil && isField(info, sl.X, "parsergen/lr1", "Prod", "Terms") {
				if b, k, ok := addConst(info, sl.Low); ok && k == 1 && strings.HasSuffix(b, ".Dot") {
					betaOK = true
				}
			}
			aOK := false
			if ix, ok := ast.Unparen(a).(*ast.IndexExpr); ok && isField(info, ix.X, "parsergen/lr1", "Grammar", "Terminals") && isField(info, ix.Index, "parsergen/lr1", "Item", "Lookahead") {
				aOK = true
			}
			okFirst = betaOK && aOK
			if !betaOK {
				why = "beta is `" + exprString(beta) + "`, not prod.Terms[item.Dot+1:]"
			} else if !aOK {
				why = "the symbol appended to beta is `" + exprString(a) + "`, not the item's lookahead terminal"
			}
		}
	}
	c.check(okFirst, rule, "lr1.Closure/first-of-beta-a", p.Pos(fd.Pos()), "lookaheads of new items are FIRST(beta a): beta = prod.Terms[Dot+1:], a = the item's lookahead", why)
	// new items: Item{Prod: prodB.Index, Dot: 0, Lookahead: t.Index}
	okItem := false
	ast.Inspect(fd.Body, func(n ast.Node) bool {
		cl, ok := n.(*ast.CompositeLit)
		if !ok || !typeIs(info.TypeOf(cl), "parsergen/lr1", "Item") {
			return true
		}
		m := map[string]ast.Expr{}
		for _, el := range cl.Elts {
			if kv, ok := el.(*ast.KeyValueExpr); ok {
				m[exprString(kv.Key)] = kv.Value
			}
		}
		dot, dok := constInt(info, m["Dot"])
		if m["Prod"] != nil && isField(info, m["Prod"], "parsergen/lr1", "Prod", "Index") && dok && dot == 0 && m["Lookahead"] != nil && isField(info, m["Lookahead"], "parsergen/lr1", "Terminal", "Index") {
			okItem = true
		}
		return true
	})
	c.check(okItem, rule, "lr1.Closure/new-item", p.Pos(fd.Pos()), "closure items are [B -> .gamma, x] with x ranging over the FIRST set", "closure items are not built as {Prod: prodB.Index, Dot: 0, Lookahead: t.Index}")
	// if result.Add(newItem) { pending.Add(newItem) }
	okPush := false
	ast.Inspect(fd.Body, func(n ast.Node) bool {
		ifs, ok := n.(*ast.IfStmt)
		if !ok {
			return true
		}
		call, ok := ifs.Cond.(*ast.CallExpr)
		if !ok || len(call.Args) != 1 {
			return true
		}
		if fn := calleeFunc(info, call); fn == nil || fn.Name() != "Add" {
			return true
		}
		for _, s := range ifs.Body.List {
			if es, ok := s.(*ast.ExprStmt); ok {
				if c2, ok := es.X.(*ast.CallExpr); ok && len(c2.Args) == 1 && sameExpr(c2.Args[0], call.Args[0]) {
					if fn := calleeFunc(info, c2); fn != nil && fn.Name() == "Add" {
						okPush = true
					}
				}
			}
		}
		return true
	})
	c.check(okPush, rule, "lr1.Closure/worklist", p.Pos(fd.Pos()), "exactly the items the result set reports as new are queued for expansion", "new closure items are not queued exactly when result.Add reports them new")
	// iterate all productions of the rule after the dot
	okProds := false
	ast.Inspect(fd.Body, func(n ast.Node) bool {
		if rs, ok := n.(*ast.RangeStmt); ok && isField(info, rs.X, "parsergen/lr1", "Rule", "Prods") {
			okProds = true
		}
		return true
	})
	c.check(okProds, rule, "lr1.Closure/all-productions", p.Pos(fd.Pos()), "every production of the rule after the dot is expanded", "Closure does not range over all productions of the rule after the dot")

	// Goto
	pk2, gd := p.FuncDecl("internal/parsergen/lr1", "Goto")
	if gd == nil {
		c.unres(rule, "lr1.Goto", "", "function not found")
		return
	}
	info2 := pk2.TypesInfo
	inc, cmp, clo := false, false, false
	ast.Inspect(gd.Body, func(n ast.Node) bool {
		switch x := n.(type) {
		case *ast.IncDecStmt:
			if x.Tok == token.INC && isField(info2, x.X, "parsergen/lr1", "Item", "Dot") {
				inc = true
			}
		case *ast.BinaryExpr:
			if x.Op == token.NEQ {
				if ix, ok := ast.Unparen(x.X).(*ast.IndexExpr); ok && isField(info2, ix.X, "parsergen/lr1", "Prod", "Terms") && isField(info2, ix.Index, "parsergen/lr1", "Item", "Dot") {
					if usesObj(info2, x.Y) == paramObj(info2, gd, 2) {
						cmp = true
					}
				}
			}
		case *ast.ReturnStmt:
			if len(x.Results) == 1 {
				if call, ok := x.Results[0].(*ast.CallExpr); ok {
					if fn := calleeFunc(info2, call); fn != nil && fn.Name() == "Closure" {
						clo = true
					}
				}
			}
		}
		return true
	})
	c.check(inc && cmp && clo, rule, "lr1.Goto/skeleton", p.Pos(gd.Pos()), "Goto advances the dot by one for exactly the items whose next symbol is the given one and returns the closure",
		fmt.Sprintf("Goto skeleton broken (dot++: %v, next-symbol test: %v, closure of result: %v)", inc, cmp, clo))
}

// resolveLocal follows an identifier to its single defining expression in fd.
func resolveLocal(info *types.Info, fd *ast.FuncDecl, e ast.Expr) ast.Expr {
	id, ok := ast.Unparen(e).(*ast.Ident)
	if !ok {
		return e
	}
	obj := info.Uses[id]
	var def ast.Expr
	n := 0
	ast.Inspect(fd.Body, func(m ast.Node) bool {
		if as, ok := m.(*ast.AssignStmt); ok && len(as.Lhs) == len(as.Rhs) {
			for i, l := range as.Lhs {
				if li, ok := l.(*ast.Ident); ok && (info.Defs[li] == obj || info.Uses[li] == obj) {
					def = as.Rhs[i]
					n++
				}
			}
		}
		return true
	})
	if n == 1 {
		return def
	}
	return e
}

// ---- LALR-7: one action per item ----

func ruleLALR7(c *Ctx) {
	const rule = "LALR-7"
	p := c.Prog
	pk, fd := p.FuncDecl("internal/parsergen/lr1", "createActions")
	if fd == nil {
		c.unres(rule, "lr1.createActions", "", "function not found")
		return
	}
	info := pk.TypesInfo
	find := func(name string) *ast.CallExpr {
		var out *ast.CallExpr
		ast.Inspect(fd.Body, func(n ast.Node) bool {
			if call, ok := n.(*ast.CallExpr); ok {
				if fn := calleeFunc(info, call); fn != nil && fn.Name() == name {
					out = call
				}
			}
			return true
		})
		return out
	}
	isLookaheadTerminal := func(e ast.Expr) bool {
		ix, ok := ast.Unparen(e).(*ast.IndexExpr)
		return ok && isField(info, ix.X, "parsergen/lr1", "Grammar", "Terminals") && isField(info, ix.Index, "parsergen/lr1", "Item", "Lookahead")
	}
	isItemProd := func(e ast.Expr) bool {
		ix, ok := ast.Unparen(e).(*ast.IndexExpr)
		return ok && isField(info, ix.X, "parsergen/lr1", "Grammar", "Prods") && isField(info, ix.Index, "parsergen/lr1", "Item", "Prod")
	}
	par := parents(fd)
	condsOf := func(n ast.Node) []string {
		var cs []string
		for q := par[n]; q != nil; q = par[q] {
			if ifs, ok := q.(*ast.IfStmt); ok {
				if containsNode(ifs.Body, n) {
					cs = append(cs, exprString(ifs.Cond))
				} else if ifs.Else != nil && containsNode(ifs.Else, n) {
					cs = append(cs, "!("+exprString(ifs.Cond)+")")
				}
			}
		}
		return cs
	}
	acc, red, sh := find("AddAccept"), find("AddReduce"), find("AddShift")
	if acc == nil || red == nil || sh == nil {
		c.unres(rule, "lr1.createActions", p.Pos(fd.Pos()), "AddAccept/AddReduce/AddShift calls not found")
		return
	}
	complete := func(cs []string) bool {
		for _, s := range cs {
			if s == "item.Dot == len(prod.Terms)" || s == "len(prod.Terms) == item.Dot" {
				return true
			}
		}
		return false
	}
	hasCond := func(cs []string, want ...string) bool {
		for _, s := range cs {
			for _, w := range want {
				if s == w {
					return true
				}
			}
		}
		return false
	}
	ac := condsOf(acc)
	c.check(complete(ac) && hasCond(ac, "item.Prod == sPrimeProdIndex") && len(acc.Args) == 1 && isLookaheadTerminal(acc.Args[0]), rule, "lr1.createActions/accept", p.Pos(acc.Pos()),
		"complete item of the start production => accept on its lookahead", "accept is not created exactly for the complete start item on its own lookahead")
	rc := condsOf(red)
	c.check(complete(rc) && hasCond(rc, "!(item.Prod == sPrimeProdIndex)", "item.Prod != sPrimeProdIndex") && len(red.Args) == 2 && isLookaheadTerminal(red.Args[0]) && isItemProd(red.Args[1]), rule, "lr1.createActions/reduce", p.Pos(red.Pos()),
		"other complete item => reduce by that production on that item's lookahead", "reduce is not created for the item's own production on the item's own lookahead")
	// shift: terminal after the dot, target = Transitions(state).Get(terminal)
	okShift := len(sh.Args) == 3 && isItemProd(sh.Args[2])
	if okShift {
		tgt := resolveLocal(info, fd, sh.Args[1])
		if call, ok := ast.Unparen(tgt).(*ast.CallExpr); ok && len(call.Args) == 1 && sameExpr(call.Args[0], sh.Args[0]) {
			if fn := calleeFunc(info, call); fn == nil || fn.Name() != "Get" {
				okShift = false
			}
		} else {
			okShift = false
		}
	}
	sc := condsOf(sh)
	notComplete := false
	for _, s := range sc {
		if strings.HasPrefix(s, "!(item.Dot == len(prod.Terms))") || strings.Contains(s, "prod.Terms[item.Dot].(*Terminal)") {
			notComplete = true
		}
	}
	c.check(okShift && notComplete, rule, "lr1.createActions/shift", p.Pos(sh.Pos()),
		"item with a terminal after the dot => shift to Transitions(state).Get(that terminal), remembering the production", "shift is not created to the transition target of the terminal after the dot")
	// every item of every state is visited
	okAll := false
	ast.Inspect(fd.Body, func(n ast.Node) bool {
		if rs, ok := n.(*ast.RangeStmt); ok {
			if call, ok := rs.X.(*ast.CallExpr); ok {
				if fn := calleeFunc(info, call); fn != nil && fn.Name() == "Items" {
					if outer, ok := par[par[rs]].(*ast.RangeStmt); ok && isField(info, outer.X, "parsergen/lr1", "ParserTable", "States") {
						okAll = true
					}
				}
			}
		}
		return true
	})
	c.check(okAll, rule, "lr1.createActions/all-items", p.Pos(fd.Pos()), "every item of every state contributes its action", "createActions does not visit every item of every state")
}
