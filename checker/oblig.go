package main

import (
	"crypto/sha1"
	"encoding/json"
	"fmt"
	"os"
	"path/filepath"
	"sort"
	"strings"
	"time"
)

type State string

const (
	Discharged State = "discharged"
	Violated   State = "violated"
	Known      State = "known"
	Unresolved State = "unresolved"
)

// Obligation is one instance of one rule on one construct of the analysed source.
type Obligation struct {
	Rule      string `json:"rule"`
	Construct string `json:"construct"` // resolved symbol path, never a line number
	State     State  `json:"state"`
	Pos       string `json:"pos,omitempty"` // file:line, informational
	Reason    string `json:"reason"`
}

// Ctx is what rules write their results into.
type Ctx struct {
	Prog    *Program
	Verif   string
	Prop    string
	Tier    string
	Obs     []*Obligation
	floors  map[string]int
	notes   []string
	seen    map[string]int
	tmplAll *TmplAll
	prefix  string // prepended to construct keys (thorough tier: checked-in instance being analysed)
	lexW    *lexWriter
	parW    *parserWriter
}

func (c *Ctx) add(rule, construct string, st State, pos, reason string) *Obligation {
	construct = c.prefix + construct
	key := rule + " " + construct
	if c.seen == nil {
		c.seen = map[string]int{}
	}
	c.seen[key]++
	if n := c.seen[key]; n > 1 {
		construct = fmt.Sprintf("%s#%d", construct, n)
	}
	o := &Obligation{Rule: rule, Construct: construct, State: st, Pos: pos, Reason: reason}
	c.Obs = append(c.Obs, o)
	return o
}

func (c *Ctx) ok(rule, construct, pos, reason string, args ...any) {
	c.add(rule, construct, Discharged, pos, fmt.Sprintf(reason, args...))
}
func (c *Ctx) bad(rule, construct, pos, reason string, args ...any) {
	c.add(rule, construct, Violated, pos, fmt.Sprintf(reason, args...))
}
func (c *Ctx) unres(rule, construct, pos, reason string, args ...any) {
	c.add(rule, construct, Unresolved, pos, fmt.Sprintf(reason, args...))
}

// check adds a discharged or violated obligation depending on cond.
func (c *Ctx) check(cond bool, rule, construct, pos, okReason, badReason string) bool {
	if cond {
		c.ok(rule, construct, pos, "%s", okReason)
	} else {
		c.bad(rule, construct, pos, "%s", badReason)
	}
	return cond
}

// floor declares the minimum number of obligations (instances) a rule must have produced.
func (c *Ctx) floor(rule string, n int) {
	if c.floors == nil {
		c.floors = map[string]int{}
	}
	c.floors[rule] = n
}

func (c *Ctx) note(format string, args ...any) {
	c.notes = append(c.notes, fmt.Sprintf(format, args...))
}

func (c *Ctx) count(rule string) int {
	n := 0
	for _, o := range c.Obs {
		if o.Rule == rule {
			n++
		}
	}
	return n
}

// finish applies instance floors.
func (c *Ctx) finish() {
	rules := make([]string, 0, len(c.floors))
	for r := range c.floors {
		rules = append(rules, r)
	}
	sort.Strings(rules)
	for _, r := range rules {
		if got := c.count(r); got < c.floors[r] {
			c.unres(r, "instance-floor", "", "rule matched %d instances, fewer than the %d confirmed by hand: its anchor moved or it passes vacuously", got, c.floors[r])
		}
	}
}

// ---- known findings ----

type KnownEntry struct {
	Property  string `json:"property"`
	Rule      string `json:"rule"`
	Construct string `json:"construct"`
	What      string `json:"what"`
}
type FixedEntry struct {
	Property string `json:"property"`
	Commit   string `json:"commit"`
	What     string `json:"what"`
	Line     string `json:"line,omitempty"`
}
type KnownFile struct {
	Known []KnownEntry `json:"known"`
	Fixed []FixedEntry `json:"fixed"`
}

func loadKnown(verifDir string) (*KnownFile, error) {
	var kf KnownFile
	b, err := os.ReadFile(filepath.Join(verifDir, "known_findings.json"))
	if err != nil {
		if os.IsNotExist(err) {
			return &kf, nil
		}
		return nil, err
	}
	if err := json.Unmarshal(b, &kf); err != nil {
		return nil, fmt.Errorf("known_findings.json: %w", err)
	}
	return &kf, nil
}

func (c *Ctx) applyKnown(kf *KnownFile) {
	for _, o := range c.Obs {
		if o.State != Violated {
			continue
		}
		for _, k := range kf.Known {
			if k.Property == c.Prop && k.Rule == o.Rule && k.Construct == o.Construct {
				o.State = Known
				o.Reason += " [known finding: " + k.What + "]"
			}
		}
	}
}

// ---- reporting ----

type PropSpec struct {
	ID          string
	Level       string // "proof" | "other"
	Explanation string
	Trusted     []string
	Assumptions []string
	Run         func(c *Ctx)
	Thorough    func(c *Ctx) // extra rules for the thorough tier (may be nil)
}

type runResult struct {
	violations int
	known      int
}

func report(c *Ctx, spec *PropSpec, verifDir string, wall float64, replayCmd string) runResult {
	var res runResult
	sort.SliceStable(c.Obs, func(i, j int) bool {
		if c.Obs[i].Rule != c.Obs[j].Rule {
			return ruleLess(c.Obs[i].Rule, c.Obs[j].Rule)
		}
		return c.Obs[i].Construct < c.Obs[j].Construct
	})
	counts := map[State]int{}
	perRule := map[string]int{}
	for _, o := range c.Obs {
		counts[o.State]++
		perRule[o.Rule]++
	}
	fmt.Printf("loxcheck property=%s tier=%s: %d obligations over %d rules (%d discharged, %d known, %d violated, %d unresolved)\n",
		c.Prop, c.Tier, len(c.Obs), len(perRule), counts[Discharged], counts[Known], counts[Violated], counts[Unresolved])
	os.MkdirAll(filepath.Join(verifDir, "replays"), 0o755)
	for _, o := range c.Obs {
		switch o.State {
		case Known:
			res.known++
			fmt.Printf("KNOWN-FINDING: property=%s %s %s (%s): %s\n", c.Prop, o.Rule, o.Construct, o.Pos, o.Reason)
		case Violated, Unresolved:
			res.violations++
			h := sha1.Sum([]byte(o.Rule + "\x00" + o.Construct))
			rp := filepath.Join(verifDir, "replays", fmt.Sprintf("%s-%s-%x.json", c.Prop, o.Rule, h[:4]))
			rb, _ := json.MarshalIndent(map[string]any{
				"property": c.Prop, "rule": o.Rule, "construct": o.Construct, "kind": o.State,
				"pos": o.Pos, "reason": o.Reason, "tier": c.Tier,
				"replay": strings.ReplaceAll(replayCmd, "{path}", rp),
			}, "", " ")
			os.WriteFile(rp, rb, 0o644)
			fmt.Printf("  %s %s at %s: %s\n", o.Rule, o.Construct, o.Pos, o.Reason)
			fmt.Printf("VIOLATION property=%s replay=%s kind=%s rule=%s\n", c.Prop, rp, o.State, o.Rule)
		}
	}

	// evidence
	samples := make([]any, 0, len(c.Obs))
	for _, o := range c.Obs {
		samples = append(samples, o)
	}
	ruleCounts := map[string]map[string]int{}
	for _, o := range c.Obs {
		if ruleCounts[o.Rule] == nil {
			ruleCounts[o.Rule] = map[string]int{}
		}
		ruleCounts[o.Rule][string(o.State)]++
	}
	var prodPkgs []string
	nfuncs := 0
	for _, pk := range c.Prog.Prod {
		prodPkgs = append(prodPkgs, pk.PkgPath)
	}
	nfuncs = len(c.Prog.funcDecls)
	cov := map[string]any{
		"explanation":          spec.Explanation,
		"obligations":          len(c.Obs),
		"discharged":           counts[Discharged],
		"known_findings":       counts[Known],
		"violated":             counts[Violated],
		"unresolved":           counts[Unresolved],
		"checker_cmd":          fmt.Sprintf("bin/loxcheck -prop %s -tier %s", c.Prop, c.Tier),
		"trusted_base":         spec.Trusted,
		"samples":              samples,
		"rules":                ruleCounts,
		"instance_floors":      c.floors,
		"packages_analysed":    prodPkgs,
		"packages_loaded":      len(c.Prog.All),
		"function_decls_index": nfuncs,
		"notes":                c.notes,
		"exhaustive":           true,
		"rule":                 "one obligation per (rule, construct) found by enumerating the repository's current source; every obligation is distinct by construction (keyed by rule+resolved construct)",
		"evaluations":          len(c.Obs),
		"distinct_nontrivial":  len(c.Obs),
	}
	if c.tmplAll != nil && c.tmplAll.Err == nil {
		var tv []string
		for _, ti := range c.tmplAll.Variants {
			tv = append(tv, fmt.Sprintf("%s: %d holes rendered, %d functions, %d model productions", ti.FlagString(), len(ti.Holes), ti.NumFuncs, len(ti.Prods)))
		}
		sort.Strings(tv)
		cov["template_variants"] = tv
	}
	if spec.Assumptions == nil {
		spec.Assumptions = []string{}
	}
	if spec.Trusted == nil {
		spec.Trusted = []string{}
		cov["trusted_base"] = spec.Trusted
	}
	ev := map[string]any{
		"property_id": c.Prop,
		"tier":        c.Tier,
		"seed":        seedFromEnv(),
		"level":       spec.Level,
		"coverage":    cov,
		"assumptions": spec.Assumptions,
		"wall_s":      wall,
		"violations":  res.violations,
	}
	eb, _ := json.MarshalIndent(ev, "", " ")
	os.MkdirAll(filepath.Join(verifDir, "evidence"), 0o755)
	if err := os.WriteFile(filepath.Join(verifDir, "evidence", c.Prop+".json"), eb, 0o644); err != nil {
		fmt.Printf("cannot write evidence: %v\n", err)
		res.violations++
	}
	return res
}

func seedFromEnv() int {
	var n int
	fmt.Sscanf(os.Getenv("VERIF_SEED"), "%d", &n)
	return n
}

func ruleLess(a, b string) bool {
	pa, na := splitRule(a)
	pb, nb := splitRule(b)
	if pa != pb {
		return pa < pb
	}
	return na < nb
}

func splitRule(r string) (string, int) {
	i := strings.LastIndex(r, "-")
	if i < 0 {
		return r, 0
	}
	var n int
	fmt.Sscanf(r[i+1:], "%d", &n)
	return r[:i], n
}

func nowSeconds(t0 time.Time) float64 { return float64(time.Since(t0).Milliseconds()) / 1000 }
