#!/bin/bash
# usage: tools/run_seeded.sh <seed-id> [prop ...]   (seed-id like C01-A)
# Applies /verif/seeded/<id>/patch.diff to /repo, runs the checks of the given properties (default:
# the seed's own property), and reverts /repo. Prints one line per check: CAUGHT / MISSED.
set -u
id=$1; shift
dir=/verif/seeded/$id
props="$*"
[ -z "$props" ] && props=$(python3 -c "import json;print(json.load(open('$dir/meta.json'))['property'])")
cd /repo || exit 2
if ! git diff --quiet; then echo "/repo is dirty"; exit 2; fi
git apply "$dir/patch.diff" || { echo "patch does not apply"; exit 2; }
for p in $props; do
  out=$(cd /verif && bin/loxcheck -prop $p -tier ${TIER:-quick} -verif /tmp/seeded-verif 2>&1)
  rc=$?
  if [ $rc -ne 0 ]; then
    echo "$id $p CAUGHT: $(echo "$out" | grep -B1 '^VIOLATION' | grep -v '^VIOLATION' | grep -v '^--' | head -${NLINES:-2} | tr '\n' ' ' | cut -c1-400)"
  else
    echo "$id $p MISSED"
  fi
done
git checkout -- . && git clean -fdq
