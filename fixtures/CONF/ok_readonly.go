package fixture

// negative fixture for CONF-2: tables are only read; references to them are kept in instance
// fields and on an instance stack, which is the shape of the real templates.
var _mode0 = []uint32{0, 1, 2}
var _mode1 = []uint32{3, 4, 5}
var _modes = [][]uint32{_mode0, _mode1}

type stack[T any] []T

func (s *stack[T]) Push(x T) { *s = append(*s, x) }
func (s *stack[T]) Pop(n int) { *s = (*s)[:len(*s)-n] }
func (s stack[T]) Peek(n int) T { return s[len(s)-n-1] }

type lexer struct {
	state int
	mode  []uint32
	stk   stack[[]uint32]
	exp   []int
}

func (l *lexer) Step(i int) int {
	if l.mode == nil {
		l.mode = _mode0
	}
	mode := l.mode
	l.stk.Push(mode)
	l.mode = _modes[i]
	l.state = int(mode[i])
	l.exp = append(l.exp, int(mode[0]))
	l.mode = l.stk.Peek(0)
	l.stk.Pop(1)
	save := l.stk
	l.stk = save
	return l.state
}
