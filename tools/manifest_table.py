check("C13", "proof",
      "Proof of a sufficient static condition: every construct through which map order, time, environment, addresses, goroutines or stale files could reach the generated files or the --report text is enumerated in the production packages and each instance is discharged by an order-independence idiom (collect-then-sort, set-consumer, commutative body), a confinement argument, or a must-precede check on the generation stages. Right level because determinism is a fact about the shape of the code on every path, not about sampled runs.",
      "Trusted: Jet, go/format, go/types, go/packages, filepath.Glob deterministic; sort comparators listed in evidence are injective on the sorted elements; diagnostics (ErrLogger) are outside the output set; x/tools go/types+go/cfg and the checker's Jet-subset parser.",
      "enumerate-and-discharge dataflow/CFG rules over typed AST (go/packages, go/cfg): map-range idiom classification, who-may-call deny list, stage must-precede, file-write ownership",
      "DESIGN.md 3/C13")

check("C18", "proof",
      "Proof of instance confinement: the three templates are abstractly instantiated (both emit_bounds variants, one model production per helper-rule kind and arity), compiled to SSA, and a may-alias taint analysis proves that nothing derived from a package-level variable is written through, appended to, copied into, cleared, sent on, or handed to code outside the templates; package-level variables have constant initialisers, no init/go/sync/unsafe. Thorough repeats it on the four checked-in generated packages. No shared mutable location implies race freedom for every interleaving, which no test can enumerate.",
      "Trusted: go/ssa (x/tools v0.29.0), the checker's Jet-subset instantiation, Go memory model. Outside the claim: user actions, the user's _Lexer, simplelexer. The taint abstraction is type/field keyed and flow-insensitive (may over-approximate aliasing, reported as violation).",
      "SSA may-alias taint (effects) analysis over abstractly instantiated templates and generated instances; compile-time constant-initialiser check; positive/negative fixtures on every run",
      "DESIGN.md 3/C18")

check("C19", "other",
      "Decides the structural chain that makes one numbering reach all three generated files: constants and _TokenToString generated from one range over Grammar.Terminals with value = range key; Terminal.Index = position, list never reordered; EOF/ERROR created first and equal to the reference driver's constants; accept actions carry Terminal.Index through the lexer table into Token(); parser rows keyed by Terminal.Index and looked up by the id ReadToken returned; terminals created only by token/@external declarations after a successful name registration. Each link is a necessary condition; breaking one breaks the numbering for every specification that exercises it.",
      "Not decided: the numbers emitted for a concrete specification; density/declaration order across several .lox files (filepath.Glob order). simplelexer v0.5.0 from the module cache is taken as the reference driver.",
      "writer/reader agreement rules over typed AST of the generator and of the abstractly instantiated templates; who-may-write (field ownership) checks",
      "DESIGN.md 3/C19")
check("C10", "other",
      "Decides that encoder (internal/codegen) and decoder (template runtime code) agree on the table format and that row compression is structurally lossless: header words, transition triple order and strides, action pair stride, codes equal on both sides and to the reference driver's result codes, ranges sorted by the comparator the binary search assumes, non-greedy flag bit, dedup key covering every element with a self-delimiting encoding, index rebase by exactly the index-vector length, one row prologue for all readers, parser action/goto value encoding, index = position for productions, rules and states.",
      "Not decided: equivalence of the emitted DFA with the mode's rules (subset construction, partition refinement, range merging are behavioural), disjointness of emitted ranges, the concrete numbers. The comparison is between two pieces of source text of the same tree, so it holds for every table ever emitted.",
      "sibling cross-check (writer vs reader) by symbolic pattern extraction over typed AST: strides, offsets, codes, constants compared between Go encoder and template decoder",
      "DESIGN.md 3/C10")

for pid in ["C01","C02","C03","C04","C05","C06","C07","C08","C09","C11","C12","C14","C15","C16","C17"]:
    na(pid, "check under construction in this session; see DESIGN.md section 3 for the planned rules")
