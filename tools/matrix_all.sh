#!/bin/bash
# Runs every refactoring (must be silent on all properties) and every seeded change (must be caught
# by its own property's check) in parallel scratch worktrees. usage: tools/matrix_all.sh [refactors|seeded|both] [jobs]
what=${1:-both}; jobs=${2:-6}
cd /verif
{
 if [ $what != seeded ]; then for d in refactors/R*/; do echo "$d silent"; done; fi
 if [ $what != refactors ]; then for d in seeded/C*/; do echo "$d caught"; done; fi
} | xargs -P $jobs -L 1 tools/matrix_fast.sh 2>&1 | grep -v ' done$' | sort
git -C /repo worktree prune
