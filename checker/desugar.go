package main

// Syntactic normalisation applied to every loaded file before any rule looks at it.
//
// `for i := range n` over an integer (Go 1.22) is rewritten to the three-clause loop it abbreviates,
// `for i := 0; i < n; i++`, with the type information of the new nodes filled in, so that the rules
// (which reason about counted loops through their init / condition / post parts) see one form only.
// The rewrite is exact for analysis purposes: n is evaluated once by the range form and on every
// iteration by the three-clause form, which differs only if the body changes n; a range-over-int
// whose bound is assigned in its body is therefore left alone.

import (
	"go/ast"
	"go/constant"
	"go/token"
	"go/types"

	"golang.org/x/tools/go/ast/astutil"
)

func desugarFile(info *types.Info, pkg *types.Package, f *ast.File) int {
	n := 0
	astutil.Apply(f, nil, func(c *astutil.Cursor) bool {
		rs, ok := c.Node().(*ast.RangeStmt)
		if !ok || rs.Value != nil {
			return true
		}
		t := info.TypeOf(rs.X)
		if t == nil {
			return true
		}
		b, ok := t.Underlying().(*types.Basic)
		if !ok || b.Info()&types.IsInteger == 0 {
			return true
		}
		// loop variable
		var v *types.Var
		var keyIdent *ast.Ident
		if rs.Key != nil {
			id, ok := rs.Key.(*ast.Ident)
			if !ok || rs.Tok != token.DEFINE {
				return true
			}
			if id.Name == "_" {
				keyIdent = nil
			} else {
				keyIdent = id
				v, _ = info.Defs[id].(*types.Var)
				if v == nil {
					return true
				}
			}
		}
		// the bound must not be assigned in the body
		assigned := false
		bound := map[types.Object]bool{}
		ast.Inspect(rs.X, func(m ast.Node) bool {
			if id, ok := m.(*ast.Ident); ok {
				if o := info.Uses[id]; o != nil {
					if _, isVar := o.(*types.Var); isVar {
						bound[o] = true
					}
				}
			}
			return true
		})
		ast.Inspect(rs.Body, func(m ast.Node) bool {
			switch x := m.(type) {
			case *ast.AssignStmt:
				for _, l := range x.Lhs {
					if id, ok := ast.Unparen(l).(*ast.Ident); ok && bound[info.Uses[id]] {
						assigned = true
					}
				}
			case *ast.IncDecStmt:
				if id, ok := ast.Unparen(x.X).(*ast.Ident); ok && bound[info.Uses[id]] {
					assigned = true
				}
			case *ast.UnaryExpr:
				if x.Op == token.AND {
					if id, ok := ast.Unparen(x.X).(*ast.Ident); ok && bound[info.Uses[id]] {
						assigned = true
					}
				}
			}
			return true
		})
		if assigned {
			return true
		}
		vt := types.Default(t)
		if keyIdent == nil {
			keyIdent = &ast.Ident{NamePos: rs.For, Name: "_i"}
			v = types.NewVar(rs.For, pkg, "_i", vt)
			info.Defs[keyIdent] = v
		}
		zero := &ast.BasicLit{ValuePos: rs.For, Kind: token.INT, Value: "0"}
		info.Types[zero] = types.TypeAndValue{Type: vt, Value: constant.MakeInt64(0)}
		setMode(info, zero, true)
		use1 := &ast.Ident{NamePos: rs.X.Pos(), Name: keyIdent.Name}
		use2 := &ast.Ident{NamePos: rs.X.End(), Name: keyIdent.Name}
		info.Uses[use1], info.Uses[use2] = v, v
		info.Types[use1] = types.TypeAndValue{Type: v.Type()}
		info.Types[use2] = types.TypeAndValue{Type: v.Type()}
		setMode(info, use1, false)
		setMode(info, use2, false)
		cond := &ast.BinaryExpr{X: use1, OpPos: rs.X.Pos(), Op: token.LSS, Y: rs.X}
		info.Types[cond] = types.TypeAndValue{Type: types.Typ[types.UntypedBool]}
		setMode(info, cond, false)
		fs := &ast.ForStmt{
			For:  rs.For,
			Init: &ast.AssignStmt{Lhs: []ast.Expr{keyIdent}, TokPos: rs.For, Tok: token.DEFINE, Rhs: []ast.Expr{zero}},
			Cond: cond,
			Post: &ast.IncDecStmt{X: use2, TokPos: rs.X.End(), Tok: token.INC},
			Body: rs.Body,
		}
		if sc := info.Scopes[rs]; sc != nil {
			info.Scopes[fs] = sc
		}
		c.Replace(fs)
		n++
		return true
	})
	return n
}

// setMode fills the unexported addressing mode of a TypeAndValue the only way the API allows: by
// copying an existing entry of the right mode. A constant needs mode constant_, a variable mode
// variable, a comparison mode value; go/ssa consults IsValue()/IsType()/Value only, which work with
// the zero mode except that IsValue() would be false, so a donor entry is looked up.
func setMode(info *types.Info, e ast.Expr, isConst bool) {
	tv := info.Types[e]
	for donor, dtv := range info.Types {
		if isConst {
			if dtv.Value != nil && dtv.IsValue() {
				if _, ok := donor.(*ast.BasicLit); ok {
					n := dtv
					n.Type, n.Value = tv.Type, tv.Value
					info.Types[e] = n
					return
				}
			}
		} else if dtv.Value == nil && dtv.IsValue() && !dtv.Addressable() {
			if _, ok := donor.(*ast.BinaryExpr); ok {
				n := dtv
				n.Type = tv.Type
				info.Types[e] = n
				return
			}
		}
	}
}
